"""C03: DimensionalityEstimator loss is not -[log N(z;0,I) + log-likelihood]: the Gaussian prior is
normalised for 2 latent variables instead of the 2*p the latent array z (shape (2, p)) actually holds.
usage: python repro_1.py /path/to/repo      exit 1 = violation shown"""
import sys
sys.path.insert(0, sys.argv[1] if len(sys.argv) > 1 else ".")
import logging
import numpy as np
from scipy.special import gammaln
import mellon
import jax.numpy as jnp

logging.getLogger("mellon").setLevel(logging.ERROR)
print("mellon from", mellon.__file__)


def reference_loss(z, L, mu_dim, mu_dens, dist, factorial):
    """minus [ log N(z; 0, I) + sum_ij log Poisson-kNN(r_ij | d_i, rho_i) ]"""
    dims = np.exp(L @ z[0] + mu_dim)[:, None]
    logrho = (L @ z[1] + mu_dens)[:, None]
    j = np.arange(1, dist.shape[1] + 1)[None, :]
    log_vol = dims / 2 * np.log(np.pi) - gammaln(dims / 2 + 1) + dims * np.log(dist)
    lam = logrho + log_vol  # log expected count in the ball of radius r_ij
    # factorial="j!"    : Poisson pmf of j points in the ball
    # factorial="(j-1)!": the normaliser the library uses (gammaln(j))
    norm = gammaln(j + 1) if factorial == "j!" else gammaln(j)
    loglik = (j * lam - np.exp(lam) - norm).sum()
    logprior = -0.5 * (z**2).sum() - z.size / 2 * np.log(2 * np.pi)  # N(z;0,I) over ALL z.size latents
    return -(logprior + loglik)


rng = np.random.default_rng(0)
violated = False
for n in (30, 60):
    x = rng.normal(size=(n, 2))
    est = mellon.DimensionalityEstimator(k=5)
    loss, z0 = est.prepare_inference(x)
    L = np.asarray(est.L)
    p = L.shape[1]
    dist = np.sort(np.asarray(est.distances), axis=1)
    for trial in range(2):
        z = 0.3 * rng.normal(size=z0.shape)
        lib = float(loss(jnp.asarray(z)))
        ref_a = reference_loss(z, L, est.mu_dim, est.mu_dens, dist, "(j-1)!")
        ref_b = reference_loss(z, L, est.mu_dim, est.mu_dens, dist, "j!")
        print(
            f"n={n} z.shape={z.shape} library loss={lib:.6f}  "
            f"lib-ref[(j-1)! convention]={lib - ref_a:+.6f}  lib-ref[Poisson pmf]={lib - ref_b:+.6f}  "
            f"-(p-1)*log(2pi)={-(p - 1) * np.log(2 * np.pi):+.6f}"
        )
        tol = 1e-9 * abs(lib)
        if abs(lib - ref_a) > tol and abs(lib - ref_b) > tol:
            violated = True
print("VIOLATION: loss differs from -[log N(z;0,I)+loglik] by (p-1)*log(2*pi), which depends on the model size"
      if violated else "no violation")
sys.exit(1 if violated else 0)
