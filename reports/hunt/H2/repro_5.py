"""C05: RatQuad does not return the value of its documented formula when ls != 1.
Documented (class docstring, the only documentation of the kernel):
        (1 + |x-y|^2 / (2 alpha l^2)) ^ (-alpha l)
Computed:
        (1 + |x-y|^2 / (2 alpha l^2)) ^ (-alpha)
usage: python repro_5.py /path/to/repo      exit 1 = violation shown"""
import sys
sys.path.insert(0, sys.argv[1] if len(sys.argv) > 1 else ".")
import numpy as np
import mellon
import jax.numpy as jnp
from mellon.cov import RatQuad

print("mellon from", mellon.__file__)
doc_lines = [l.strip() for l in RatQuad.__doc__.splitlines() if "alpha" in l and "frac" in l]
print("documented formula:", doc_lines)
documents_alpha_l = any("^{-\\alpha l}" in l for l in doc_lines)

rng = np.random.default_rng(0)
x = rng.normal(size=(4, 3))
y = rng.normal(size=(5, 3))
d2 = ((x[:, None] - y[None]) ** 2).sum(-1) + 1e-12
violated = False
for alpha, ls in ((1.0, 1.0), (2.0, 0.5), (0.7, 3.0)):
    lib = np.asarray(RatQuad(alpha=alpha, ls=ls)(jnp.asarray(x), jnp.asarray(y)))
    documented = (1 + d2 / (2 * alpha * ls**2)) ** (-alpha * ls)
    standard = (1 + d2 / (2 * alpha * ls**2)) ** (-alpha)
    e_doc = np.abs(lib - documented).max()
    e_std = np.abs(lib - standard).max()
    print(f"alpha={alpha} ls={ls}: max|library - documented|={e_doc:.3e}   max|library - exponent(-alpha)|={e_std:.3e}")
    if documents_alpha_l and e_doc > 1e-9:
        violated = True
print("VIOLATION: library value differs from the documented closed form for ls != 1" if violated else "no violation")
sys.exit(1 if violated else 0)
