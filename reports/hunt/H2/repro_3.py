"""C11: Exponential.k_grad returns gradients that are orders of magnitude too large for near-coincident
points whose coordinates are of order 1e1..1e2.
The true gradient of exp(-|x-y|/(2 ls)) w.r.t. y has norm <= 1/(2 ls) everywhere.  util.distance_grad
computes the distance as sqrt(max(xx - 2xy + yy + 1e-12, 0)) (cancellation: can round to <= 0 and is then
clipped to 0) but the direction as the exact difference (y - x) divided by (distance + 1e-12), so the
'unit' direction gets a norm up to |y-x| / 1e-12.
usage: python repro_3.py /path/to/repo      exit 1 = violation shown"""
import sys
sys.path.insert(0, sys.argv[1] if len(sys.argv) > 1 else ".")
import numpy as np
import mellon
import jax, jax.numpy as jnp
from mellon.cov import Exponential, Matern52

print("mellon from", mellon.__file__)
rng = np.random.default_rng(0)
ls = 1.0
kern = Exponential(ls=ls)
bound = 1 / (2 * ls)  # sup norm of the true gradient
worst = (0.0, None)
n_bad = 0
n_tot = 0
for nf in (2, 5, 25):
    for trial in range(400):
        x = rng.uniform(-100, 100, size=(1, nf))  # coordinates within +-1e2
        u = rng.normal(size=nf)
        u /= np.linalg.norm(u)
        sep = 10 ** rng.uniform(-8, -5)  # near-coincident pair
        y = x + sep * u
        g = np.asarray(kern.k_grad(jnp.asarray(x))(jnp.asarray(y)))[0, 0]
        d = np.sqrt(((y - x) ** 2).sum() + 1e-12)  # regularised distance, computed stably
        true = -(y - x)[0] / d / (2 * ls) * np.exp(-d / (2 * ls))
        n_tot += 1
        if np.linalg.norm(g) > 10 * bound:
            n_bad += 1
        if np.linalg.norm(g) > worst[0]:
            worst = (np.linalg.norm(g), (nf, sep, np.linalg.norm(true), x, y))
gn, (nf, sep, tn, x, y) = worst
print(f"{n_bad} of {n_tot} near-coincident pairs have |k_grad| > 10 * sup|true gradient| (= {10*bound})")
print(f"worst: n_features={nf} |y-x|={sep:.3g}: |k_grad|={gn:.4g}, true |gradient|={tn:.4g}, bound={bound}")
# the same pair in a product kernel (depth-1 expression)
prod = Exponential(ls=ls) * Matern52(ls=3.0)
gp = np.asarray(prod.k_grad(jnp.asarray(x))(jnp.asarray(y)))[0, 0]
print(f"Exponential*Matern52 at the same pair: |k_grad|={np.linalg.norm(gp):.4g}")
violated = n_bad > 0
print("VIOLATION: analytic gradient exceeds the global Lipschitz bound of the kernel by orders of magnitude"
      if violated else "no violation")
sys.exit(1 if violated else 0)
