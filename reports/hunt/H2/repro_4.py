"""C04: a user-supplied inducing-point factor Lp that fulfils the documented contract Lp Lp^T = Sigma_p
(covariance of the inducing points incl. jitter) but is not lower triangular is silently mis-used:
only its lower triangle is read (solve_triangular), so L L^T is neither the Nystroem projection nor below K.
usage: python repro_4.py /path/to/repo      exit 1 = violation shown"""
import sys
sys.path.insert(0, sys.argv[1] if len(sys.argv) > 1 else ".")
import logging
import numpy as np
import mellon
import jax.numpy as jnp
from mellon.parameters import compute_L
from mellon.cov import Matern52

logging.getLogger("mellon").setLevel(logging.ERROR)
print("mellon from", mellon.__file__)
rng = np.random.default_rng(0)
x = rng.normal(size=(40, 2))
xu = x[:8]  # inducing points: subset of the cells
cov = Matern52(ls=1.0)
jitter = 1e-6
K = np.asarray(cov(jnp.asarray(x), jnp.asarray(x))) + jitter * np.eye(40)
Kuu = np.asarray(cov(jnp.asarray(xu), jnp.asarray(xu))) + jitter * np.eye(8)
Kxu = np.asarray(cov(jnp.asarray(x), jnp.asarray(xu)))
nystroem = Kxu @ np.linalg.solve(Kuu, Kxu.T)

w, V = np.linalg.eigh(Kuu)
factors = {
    "Cholesky (lower)": np.linalg.cholesky(Kuu),
    "symmetric square root": (V * np.sqrt(w)) @ V.T,
    "upper-triangular factor": np.linalg.cholesky(Kuu[::-1, ::-1])[::-1, ::-1],
}
violated = False
for name, Lp in factors.items():
    contract = np.abs(Lp @ Lp.T - Kuu).max()
    for gp_type in ("sparse_cholesky", "fixed"):
        L = np.asarray(compute_L(x, cov, gp_type=gp_type, landmarks=xu, Lp=Lp, jitter=jitter))
        err = np.abs(L @ L.T - nystroem).max()
        D = K - L @ L.T
        mineig = np.linalg.eigvalsh((D + D.T) / 2).min()
        print(f"{name:26s} |Lp Lp^T - Sigma_p|={contract:.1e}  {gp_type:16s} L{L.shape} "
              f"|L L^T - Nystroem|={err:.2e}  min eig((K+jitter I) - L L^T)={mineig:.3g}")
        if err > 1e-8 or mineig < -1e-8:
            violated = True
# same through the estimator
est = mellon.DensityEstimator(gp_type="sparse_cholesky", landmarks=xu, Lp=factors["symmetric square root"],
                              cov_func=cov, jitter=jitter)
est.prepare_inference(x)
L = np.asarray(est.L)
print("DensityEstimator(Lp=symmetric square root): |L L^T - Nystroem| =", np.abs(L @ L.T - nystroem).max())
print("VIOLATION: valid factors of Sigma_p give an L with L L^T != Nystroem projection and L L^T not below K"
      if violated else "no violation")
sys.exit(1 if violated else 0)
