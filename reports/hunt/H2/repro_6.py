"""C10 (bare routine mellon.decomposition._eigendecomposition, named in the property's quantifier):
for a symmetric matrix without any positive eigenvalue (e.g. the zero matrix, sizes 1..n) the routine
 - integer rank r: returns ALL n eigenpairs (more than the r requested, all non-positive, so that
   L = v*sqrt(s) is 0 or NaN) instead of 'min(r, #positive), but at least one';
 - fractional rank: raises IndexError instead of keeping one direction.
usage: python repro_6.py /path/to/repo      exit 1 = violation shown"""
import sys
sys.path.insert(0, sys.argv[1] if len(sys.argv) > 1 else ".")
import logging
import numpy as np
import mellon
import jax.numpy as jnp
from mellon.decomposition import _eigendecomposition

logging.getLogger("mellon").setLevel(logging.CRITICAL)
print("mellon from", mellon.__file__)
violated = False
cases = {"zeros(1,1)": np.zeros((1, 1)), "zeros(4,4)": np.zeros((4, 4)),
         "diag(0,0,-1e-17)": np.diag([0.0, 0.0, -1e-17]), "-1e-12*I(3)": -1e-12 * np.eye(3)}
for name, A in cases.items():
    for rank in (1, 2, 0.5):
        try:
            s, v = _eigendecomposition(jnp.asarray(A), rank=rank)
            kept = s.shape[0]
            expect = 1  # min(r, 0 positive eigenvalues) bumped to 'at least one'
            flag = "" if kept == expect else "  <-- keeps %d directions, expected %d" % (kept, expect)
            print(f"{name:18s} rank={rank!r}: kept eigenvalues {np.asarray(s)}{flag}")
            if kept != expect:
                violated = True
        except Exception as e:  # noqa
            print(f"{name:18s} rank={rank!r}: raises {type(e).__name__}: {e}")
            violated = True

# The same branch through the documented helper mellon.parameters.compute_L (gp_type sparse_nystroem):
# with a short length scale every cell-landmark covariance is ~1e-200, its square underflows, the
# projected matrix K_xu K_uu^-1 K_ux is exactly 0 and has no positive eigenvalue.
from mellon.parameters import compute_L
from mellon.cov import Matern52

rng = np.random.default_rng(0)
x = rng.normal(size=(40, 10))
xu = rng.normal(size=(8, 10))  # arbitrary inducing points
cov = Matern52(ls=0.01)
print("max cell-landmark covariance:", float(cov(jnp.asarray(x), jnp.asarray(xu)).max()))
for rank in (3, 0.99):
    try:
        L = compute_L(x, cov, gp_type="sparse_nystroem", landmarks=xu, rank=rank)
        ok = L.shape[1] <= (rank if isinstance(rank, int) else 8) and L.shape[1] == 1
        print(f"compute_L(sparse_nystroem, rank={rank!r}) -> L{L.shape}" + ("" if ok else "  <-- more columns than the requested rank"))
        if not ok:
            violated = True
    except Exception as e:  # noqa
        print(f"compute_L(sparse_nystroem, rank={rank!r}) raises {type(e).__name__}: {e}")
        violated = True
print("VIOLATION" if violated else "no violation")
sys.exit(1 if violated else 0)
