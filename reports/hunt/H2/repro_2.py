"""C10: an integer Nystroem rank given as a NumPy / JAX integer scalar is silently ignored.
rank=5 keeps 5 eigen-directions; rank=numpy.int64(5) is converted to the float 5.0 by
validate_float_or_int, which the gp_type inference reads as 'full rank', so no rank reduction happens.
usage: python repro_2.py /path/to/repo      exit 1 = violation shown"""
import sys
sys.path.insert(0, sys.argv[1] if len(sys.argv) > 1 else ".")
import logging
import numpy as np
import mellon
import jax.numpy as jnp
from mellon.parameters import compute_L
from mellon.cov import Matern52

logging.getLogger("mellon").setLevel(logging.ERROR)
print("mellon from", mellon.__file__)
rng = np.random.default_rng(0)
x = rng.normal(size=(50, 2))
violated = False

for r in (5, np.int64(5), np.int32(5), jnp.asarray(5)):
    tag = f"rank={r!r} ({type(r).__name__})"
    # documented helper
    L = compute_L(x, Matern52(ls=1.0), rank=r)
    # estimator, dense and with landmarks
    e1 = mellon.DensityEstimator(rank=r)
    e1.prepare_inference(x)
    e2 = mellon.DensityEstimator(rank=r, n_landmarks=20)
    e2.prepare_inference(x)
    print(f"{tag}: compute_L -> {L.shape}; DensityEstimator -> {e1.gp_type.value} L{e1.L.shape} stored rank={e1.rank!r}; "
          f"n_landmarks=20 -> {e2.gp_type.value} L{e2.L.shape}")
    if not (L.shape[1] == 5 and e1.L.shape[1] == 5 and e2.L.shape[1] == 5):
        violated = True
print("VIOLATION: integer rank 5 requested, but the factor keeps all 50 / 20 directions without any error"
      if violated else "no violation")
sys.exit(1 if violated else 0)
