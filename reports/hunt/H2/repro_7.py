"""C03: per-cell inputs given as an (n, 1) column are accepted without error and silently broadcast to n x n
inside the likelihood, so the loss is no longer -[log N(z;0,I) + sum_i log p(r_i | rho_i, d_i)].
mellon.parameters.compute_distances(x, 1) - the documented helper that produces nearest-neighbour
distances - returns exactly such an (n, 1) array.
usage: python repro_7.py /path/to/repo      exit 1 = violation shown"""
import sys
sys.path.insert(0, sys.argv[1] if len(sys.argv) > 1 else ".")
import logging
import numpy as np
from scipy.special import gammaln
import mellon
import jax.numpy as jnp
from mellon.parameters import compute_distances

logging.getLogger("mellon").setLevel(logging.ERROR)
print("mellon from", mellon.__file__)
rng = np.random.default_rng(0)
n, nf = 30, 2
x = rng.normal(size=(n, nf))


def reference_loss(z, L, mu, r, d):
    f = L @ z + mu
    log_vol = d / 2 * np.log(np.pi) - gammaln(d / 2 + 1) + d * np.log(r)
    loglik = (f + np.log(d) + log_vol - np.log(r) - np.exp(f + log_vol)).sum()
    return -(-0.5 * z @ z - len(z) / 2 * np.log(2 * np.pi) + loglik)


violated = False
r_col = compute_distances(x, 1)  # shape (n, 1)
print("compute_distances(x, 1).shape =", r_col.shape)
cases = {
    "nn_distances=(n,) vector": dict(nn_distances=np.asarray(r_col)[:, 0]),
    "nn_distances=compute_distances(x,1)  (n,1)": dict(nn_distances=r_col),
    "d=(n,1) column of 2.0": dict(d=np.full((n, 1), 2.0)),
}
for name, kw in cases.items():
    est = mellon.DensityEstimator(**kw)
    loss, z0 = est.prepare_inference(x)
    L = np.asarray(est.L)
    z = 0.1 * rng.normal(size=L.shape[1])
    lib = float(loss(jnp.asarray(z)))
    r = np.asarray(est.nn_distances).reshape(-1)
    d = np.broadcast_to(np.asarray(est.d, float).reshape(-1), r.shape)
    ref = reference_loss(z, L, est.mu, r, d)
    print(f"{name:45s} initial_value.shape={np.shape(z0)}  library loss={lib:.6f}  documented model={ref:.6f}")
    if abs(lib - ref) > 1e-8 * abs(ref):
        violated = True
print("VIOLATION: (n,1) per-cell inputs are accepted silently and change the objective" if violated else "no violation")
sys.exit(1 if violated else 0)
