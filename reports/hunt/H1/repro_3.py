"""C01 / C06: through the public helper mellon.inference.compute_conditional (defaults Lp=None,
sigma=0, y_is_mean=False) the *mean* of the predictor depends on things that must not influence
it: the flag `with_uncertainty` (full formulation) and the latent posterior standard deviations
`pre_transformation_std` (Cholesky-latent formulation).  The std vector is re-used as observation
noise when the covariance factor is rebuilt.

usage: python repro_3.py /path/to/mellon/repo      exit 1 = violation shows, 0 = not
"""
import sys
import logging

sys.path.insert(0, sys.argv[1] if len(sys.argv) > 1 else ".")
import numpy as np
import mellon
import jax.numpy as jnp
from mellon.inference import compute_conditional
from mellon.parameters import compute_L
from mellon.cov import Matern52

logging.getLogger("mellon").setLevel(logging.CRITICAL)

rng = np.random.default_rng(0)
n, m, d = 14, 5, 2
x = jnp.asarray(rng.normal(size=(n, d)))
Xq = jnp.asarray(rng.normal(size=(3, d)))
cov = Matern52(1.1)
mu, jitter = 0.3, 1e-6
bad = False

# ---------- full formulation: latent z, fitted values y = L z + mu, ADVI std of z
L = compute_L(x, cov, gp_type="full", jitter=jitter)
z = jnp.asarray(rng.normal(size=n))
std = jnp.asarray(rng.uniform(0.1, 1.0, size=n))
y = L @ z + mu
args = (x, None, z, std, y, mu, cov, L)
p_plain = compute_conditional(*args, jitter=jitter, with_uncertainty=False)
p_unc = compute_conditional(*args, jitter=jitter, with_uncertainty=True)
K = np.asarray(cov(x, x)) + jitter * np.eye(n)
ref = mu + np.asarray(cov(Xq, x)) @ np.linalg.solve(K, np.asarray(y) - mu)  # exact GP conditional mean
e_plain = np.abs(np.asarray(p_plain(Xq)) - ref).max()
e_unc = np.abs(np.asarray(p_unc(Xq)) - ref).max()
e_train = np.abs(np.asarray(p_unc(x)) - np.asarray(y)).max()
print(f"full    : |mean - exact| with_uncertainty=False: {e_plain:.2e}   with_uncertainty=True: {e_unc:.2e}")
print(f"          with_uncertainty=True predictor at the training cells vs fitted values: {e_train:.2e}")
if e_unc > 1e-6:
    bad = True

# ---------- Cholesky-latent formulation: the mean moves with pre_transformation_std
xu = x[:m]
Ls = compute_L(x, cov, gp_type="sparse_cholesky", landmarks=xu, jitter=jitter)
zs = jnp.asarray(rng.normal(size=m))
stds = jnp.asarray(rng.uniform(0.1, 1.0, size=m))
ys = Ls @ zs + mu
p_nostd = compute_conditional(x, xu, zs, None, ys, mu, cov, Ls, jitter=jitter)
p_std = compute_conditional(x, xu, zs, stds, ys, mu, cov, Ls, jitter=jitter)
d_mean = np.abs(np.asarray(p_nostd(Xq)) - np.asarray(p_std(Xq))).max()
e0 = np.abs(np.asarray(p_nostd(x)) - np.asarray(ys)).max()
e1 = np.abs(np.asarray(p_std(x)) - np.asarray(ys)).max()
print(f"cholesky: max|mean(std given) - mean(std=None)| = {d_mean:.2e}")
print(f"          predictor at training cells vs fitted values: std=None {e0:.2e}, std given {e1:.2e}")
if d_mean > 1e-6:
    bad = True

print("VIOLATION" if bad else "ok")
sys.exit(1 if bad else 0)
