"""C06 (and C01 grid): the Cholesky-latent predictor cannot be built with uncertainty when the
input uncertainty `sigma` is given, L is not supplied and y_is_mean=False: the sigma is consumed
while building L and the constructor then claims that *no* input uncertainty was specified.
The two sibling formulations accept exactly the same arguments.

usage: python repro_2.py /path/to/mellon/repo      exit 1 = violation shows, 0 = not
"""
import sys
import logging

sys.path.insert(0, sys.argv[1] if len(sys.argv) > 1 else ".")
import numpy as np
import mellon
import jax.numpy as jnp
from mellon.conditional import (
    FullConditional,
    LandmarksConditional,
    LandmarksConditionalCholesky,
    ExpLandmarksConditionalCholesky,
    LandmarksConditionalCholeskyTime,
)
from mellon.inference import compute_conditional
from mellon.cov import Matern52

logging.getLogger("mellon").setLevel(logging.CRITICAL)

rng = np.random.default_rng(0)
n, m, d = 12, 5, 2
x = jnp.asarray(rng.normal(size=(n, d)))
xu = x[:m]
y = jnp.asarray(rng.normal(size=n))
z = jnp.asarray(rng.normal(size=m))
Xq = jnp.asarray(rng.normal(size=(4, d)))
cov = Matern52(1.3)
sigma, mu = 0.2, 0.1
bad = False

# the two other formulations: fine
FullConditional(x, y, mu, cov, sigma=sigma, with_uncertainty=True).uncertainty(Xq)
LandmarksConditional(x, xu, y, mu, cov, sigma=sigma, with_uncertainty=True).uncertainty(Xq)
# the same class without uncertainty, or with y_is_mean=True: fine
LandmarksConditionalCholesky(xu, z, mu, cov, n, sigma=sigma)(Xq)
LandmarksConditionalCholesky(xu, z, mu, cov, n, sigma=sigma, y_is_mean=True, with_uncertainty=True).uncertainty(Xq)

for cls in (LandmarksConditionalCholesky, ExpLandmarksConditionalCholesky, LandmarksConditionalCholeskyTime):
    for sig in (sigma, jnp.full(m, sigma)):
        try:
            p = cls(xu, z, mu, cov, n, sigma=sig, with_uncertainty=True)  # y_is_mean=False, L=None: the defaults
            print(cls.__name__, "built; W shape", p.W.shape)
        except ValueError as e:
            bad = True
            print(f"{cls.__name__}(sigma={'vector' if jnp.ndim(sig) else sig}, with_uncertainty=True) -> ValueError: {str(e)[:70]}...")

# even sigma=0 ("noise free") is refused on this path although it is accepted when L is passed
try:
    compute_conditional(x, xu, z, None, y, mu, cov, None, None, sigma=0, with_uncertainty=True)
    print("compute_conditional(sigma=0, Lp=None, with_uncertainty=True): built")
except ValueError as e:
    bad = True
    print("compute_conditional(sigma=0, Lp=None, with_uncertainty=True) -> ValueError:", str(e)[:60], "...")

print("VIOLATION" if bad else "ok")
sys.exit(1 if bad else 0)
