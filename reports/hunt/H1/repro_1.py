"""C01 / C09 / C16: a per-cell sigma vector combined with m == n inducing points is silently
applied to the *landmarks* instead of the cells (wrong conditional mean, no error).

usage: python repro_1.py /path/to/mellon/repo      exit 1 = violation shows, 0 = not
"""
import sys
import logging

sys.path.insert(0, sys.argv[1] if len(sys.argv) > 1 else ".")
import numpy as np
import mellon
import jax.numpy as jnp
from mellon import FunctionEstimator
from mellon.conditional import FullConditional, LandmarksConditional
from mellon.cov import Matern52

logging.getLogger("mellon").setLevel(logging.CRITICAL)

rng = np.random.default_rng(0)
n, d = 12, 2
x = rng.normal(size=(n, d))
y = rng.normal(size=n)
sigma = rng.uniform(0.05, 1.0, size=n)  # one noise level per cell, all >> sqrt(jitter)
Xq = rng.normal(size=(5, d))
ls, mu, jitter = 1.3, 0.3, 1e-6
cov = Matern52(ls)
bad = False

# ---- (1) public estimator API: 'fixed' with >= n landmarks must reproduce 'full' up to O(jitter)
full = FunctionEstimator(gp_type="full", ls=ls, mu=mu, sigma=sigma, jitter=jitter)
fixed = FunctionEstimator(gp_type="fixed", n_landmarks=n, ls=ls, mu=mu, sigma=sigma, jitter=jitter)
p_full = np.asarray(full.fit_predict(x, y, Xq))
p_fixed = np.asarray(fixed.fit_predict(x, y, Xq))
assert np.array_equal(np.asarray(fixed.landmarks), np.asarray(fixed.x))  # landmarks are the cells
err1 = np.abs(p_full - p_fixed).max()
# control: with the *scalar* sigma the two formulations agree to O(jitter / sigma^2)
c_full = np.asarray(FunctionEstimator(gp_type="full", ls=ls, mu=mu, sigma=0.3, jitter=jitter).fit_predict(x, y, Xq))
c_fixed = np.asarray(FunctionEstimator(gp_type="fixed", n_landmarks=n, ls=ls, mu=mu, sigma=0.3, jitter=jitter).fit_predict(x, y, Xq))
ctrl = np.abs(c_full - c_fixed).max()
print(f"(1) FunctionEstimator fixed(m=n) vs full, per-cell sigma : max|diff| = {err1:.3e}")
print(f"    same with scalar sigma (control)                     : max|diff| = {ctrl:.3e}")
if err1 > 1e-3:
    bad = True

# ---- (2) predictor classes against the exact heteroscedastic conditional means
xj, yj, sj, Xqj = map(jnp.asarray, (x, y, sigma, Xq))
lm = np.asarray(LandmarksConditional(xj, xj, yj, mu, cov, sigma=sj, jitter=jitter)(Xqj))
fc = np.asarray(FullConditional(xj, yj, mu, cov, sigma=sj, jitter=jitter)(Xqj))
K = np.asarray(cov(xj, xj))
Ks = np.asarray(cov(Xqj, xj))
D = np.diag(np.maximum(sigma**2, jitter))
r = y - mu
ref_full = mu + Ks @ np.linalg.solve(K + D, r)
Kuu = K + jitter * np.eye(n)  # DTC with inducing points u = x and noise covariance D on the cells
Dinv = np.linalg.inv(D)
ref_dtc = mu + Ks @ np.linalg.solve(Kuu + K @ Dinv @ K, K @ Dinv @ r)
print(f"(2) FullConditional      vs exact full GP mean : {np.abs(fc - ref_full).max():.3e}")
print(f"    LandmarksConditional vs exact DTC mean     : {np.abs(lm - ref_dtc).max():.3e}")
print(f"    LandmarksConditional vs exact full GP mean : {np.abs(lm - ref_full).max():.3e}")
# what the library actually solves: sigma_i is attached to landmark i in the whitened landmark basis
L = np.linalg.cholesky(Kuu)
A = np.linalg.solve(L, K)
w = np.linalg.solve(L.T, np.linalg.solve(A @ A.T + D, A @ r))
print(f"    LandmarksConditional vs 'noise on landmarks': {np.abs(lm - (mu + Ks @ w)).max():.3e}")
if np.abs(lm - ref_dtc).max() > 1e-3:
    bad = True

# ---- (3) inducing points are a set: re-ordering them must not change the predictor
perm = rng.permutation(n)
lm_perm = np.asarray(LandmarksConditional(xj, xj[perm], yj, mu, cov, sigma=sj, jitter=jitter)(Xqj))
err3 = np.abs(lm - lm_perm).max()
print(f"(3) same landmarks in another order: max|diff| = {err3:.3e}")
if err3 > 1e-3:
    bad = True

# for m != n the same request is refused (ValueError) -- only the m == n coincidence slips through
try:
    LandmarksConditional(xj, xj[:-1], yj, mu, cov, sigma=sj, jitter=jitter)
    print("    m = n-1: accepted")
except ValueError as e:
    print("    m = n-1: refused with ValueError (as designed)")

print("VIOLATION" if bad else "ok")
sys.exit(1 if bad else 0)
