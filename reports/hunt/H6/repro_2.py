"""C14 (quantifier: scalar and per-cell d) / C18: a per-cell `d` (documented: "d : int, array-like") makes the
time-sensitive estimator crash with a TypeError as soon as the time length scale has to be selected
automatically (ls_time=None, the default): the whole length-n vector d is handed to the per-time-point
DensityEstimator together with only that time point's nn_distances."""
import sys
sys.path.insert(0, sys.argv[1] if len(sys.argv) > 1 else "/tmp/hunt/H6/repo")
import logging
import numpy as np
import mellon
logging.getLogger("mellon").setLevel(logging.CRITICAL)

rng = np.random.default_rng(1)
n = 60
X = rng.normal(size=(n, 2))
t = rng.choice([2.5, 0.5, 1.0], size=n, p=[.5, .2, .3])
d_cell = rng.uniform(1.5, 2.5, size=n)          # one intrinsic dimensionality per cell

# works with a scalar d, and with per-cell d if ls_time is given
mellon.TimeSensitiveDensityEstimator(n_landmarks=0, d=2.0).fit(X, t)
mellon.TimeSensitiveDensityEstimator(n_landmarks=0, d=d_cell, ls_time=1.0).fit(X, t)

bad = False
for norm in (False, True):
    try:
        est = mellon.TimeSensitiveDensityEstimator(n_landmarks=0, d=d_cell, normalize_per_time_point=norm)
        est.fit(X, t)
        print(f"normalize={norm}: fitted, ls_time = {est.ls_time}")
    except Exception as e:  # noqa
        print(f"normalize={norm}: {type(e).__name__}: {str(e)[:100]}")
        bad = True
print("VIOLATION" if bad else "ok")
sys.exit(1 if bad else 0)
