"""C14: with normalize_per_time_point the length-scale heuristic must use the same un-normalised
distances as without normalisation.  With one duplicated cell it uses un-validated distances (a 0),
gets ls = 0.0 and the fit fails, while normalize_per_time_point=False gives ls ~ 5.4 and fits."""
import sys
sys.path.insert(0, sys.argv[1] if len(sys.argv) > 1 else "/tmp/hunt/H6/repo")
import logging
import numpy as np
import mellon
logging.getLogger("mellon").setLevel(logging.CRITICAL)

rng = np.random.default_rng(1)
n = 50
X = rng.normal(size=(n, 2))
t = np.repeat([0.0, 1.0], n // 2)      # two time points of equal size: normalisation factor is exactly 1
X[1] = X[0]                            # one duplicated cell state inside time point 0

ref = mellon.TimeSensitiveDensityEstimator(ls_time=1.0, n_landmarks=0, normalize_per_time_point=False)
ref.fit(X, t)
print("normalize=False : ls =", ref.ls, " nn_distances.min =", float(ref.nn_distances.min()))

bad = False
for norm in (True, [25, 25], {0.0: 25, 1.0: 25}):
    est = mellon.TimeSensitiveDensityEstimator(ls_time=1.0, n_landmarks=0, normalize_per_time_point=norm)
    try:
        est.fit(X, t)
        err = None
    except Exception as e:  # noqa
        err = f"{type(e).__name__}: {str(e)[:80]}"
    same_nn = est.nn_distances is not None and bool(np.allclose(est.nn_distances, ref.nn_distances, rtol=1e-14))
    print(f"normalize={norm!r}: ls = {est.ls}  nn_distances equal to un-normalised: {same_nn}  fit error: {err}")
    if est.ls is None or abs(est.ls - ref.ls) > 1e-12 * ref.ls or err is not None:
        bad = True
print("VIOLATION" if bad else "ok")
sys.exit(1 if bad else 0)
