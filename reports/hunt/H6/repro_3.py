"""C13 (time_derivative of time-aware predictors, multi-column values): for a time-aware predictor conditioned on
k > 1 value columns, `time_derivative` does not return the derivative with respect to time.  It returns
`gradient(...)[:, -1]`, which for the (n, k, n_features) multi-column gradient selects the LAST VALUE COLUMN
(and all its n_features partial derivatives) instead of the LAST FEATURE (time) of every column."""
import sys
sys.path.insert(0, sys.argv[1] if len(sys.argv) > 1 else "/tmp/hunt/H6/repo")
import logging
import numpy as np
import mellon
from mellon.inference import compute_conditional_times
from mellon.cov import Matern52
logging.getLogger("mellon").setLevel(logging.CRITICAL)

rng = np.random.default_rng(7)
n, D, k = 25, 2, 2
X = np.c_[rng.normal(size=(n, D)), rng.choice([0., 1., 2.], size=n)]      # last column = time
Y = rng.normal(size=(n, k))                                              # k value columns
cov = Matern52(1.5, active_dims=slice(None, -1)) * Matern52(1.0, active_dims=-1)
Q = rng.normal(size=(4, D))
tq = np.array([0.3, 1.0, 1.7, 2.2])

bad = False
for name, landmarks in (("FullConditionalTime", None), ("LandmarksConditionalTime", X[:8])):
    P = compute_conditional_times(X, landmarks, None, None, Y, 0.0, cov, None, None, sigma=0.1)
    singles = [compute_conditional_times(X, landmarks, None, None, Y[:, j], 0.0, cov, None, None, sigma=0.1)
               for j in range(k)]
    assert np.allclose(P(Q, tq), np.stack([p(Q, tq) for p in singles], axis=1), atol=1e-12)   # means agree
    expected = np.stack([np.asarray(p.time_derivative(Q, tq)) for p in singles], axis=1)     # (4, k)
    h = 1e-6
    fd = (np.asarray(P(Q, tq + h)) - np.asarray(P(Q, tq - h))) / (2 * h)                      # (4, k)
    assert np.allclose(expected, fd, atol=1e-6)
    got = np.asarray(P.time_derivative(Q, tq))
    grad_last_col = np.asarray(singles[-1].gradient(Q, tq))                                  # d y_k / d x  (4, D)
    print(name, "time_derivative shape", got.shape, "expected", expected.shape)
    if got.shape != expected.shape or not np.allclose(got, expected, atol=1e-9):
        bad = True
        print("  returned      :", np.round(got[0], 6))
        print("  d y_j / d t   :", np.round(expected[0], 6), "(finite differences:", np.round(fd[0], 6), ")")
        print("  what it is    : [d y_last/d x_1.., d y_last/d t] =", np.round(np.r_[grad_last_col[0], expected[0, -1]], 6))
print("VIOLATION" if bad else "ok")
sys.exit(1 if bad else 0)
