import sys, logging, warnings
sys.path.insert(0, sys.argv[1] if len(sys.argv) > 1 else "/tmp/hunt/H3/repo")
warnings.filterwarnings("ignore")
import numpy as np
import mellon
logging.getLogger("mellon").setLevel(logging.CRITICAL)
# C20: wrongly typed flag / degenerate int accepted at construction and crashing with IndexError (neither ValueError nor TypeError).
rng = np.random.default_rng(0)
n = 24
X = rng.normal(size=(n, 2)); t = np.repeat([0.0, 1.0], n // 2)
bad = False
for v in [np.bool_(True), np.float64(1.5)]:
    try:
        mellon.TimeSensitiveDensityEstimator(ls_time=1.0, normalize_per_time_point=v).fit(X, t); print(repr(v), "accepted")
    except (ValueError, TypeError) as e:
        print(repr(v), "refused properly:", type(e).__name__)
    except Exception as e:
        print("normalize_per_time_point =", repr(v), "->", type(e).__name__, e); bad = True
try:
    mellon.DimensionalityEstimator(k=0).fit(X); print("k=0 accepted")
except (ValueError, TypeError) as e:
    print("k=0 refused properly:", type(e).__name__)
except Exception as e:
    print("k=0 ->", type(e).__name__, e); bad = True
print("VIOLATION" if bad else "ok")
sys.exit(1 if bad else 0)
