import sys, logging, warnings
sys.path.insert(0, sys.argv[1] if len(sys.argv) > 1 else "/tmp/hunt/H3/repo")
warnings.filterwarnings("ignore")
import numpy as np
import mellon
logging.getLogger("mellon").setLevel(logging.CRITICAL)
# C20: a 1-D input is not treated as single-feature data when d_method="fractal".
from mellon.parameters import compute_d_factal
rng = np.random.default_rng(2)
x = rng.normal(size=30)
d1, d2 = compute_d_factal(x), compute_d_factal(x[:, None])
print("compute_d_factal: 1-D ->", d1, " (n,1) ->", d2)
a = mellon.DensityEstimator(d_method="fractal"); ra = np.asarray(a.fit_predict(x))
b = mellon.DensityEstimator(d_method="fractal"); rb = np.asarray(b.fit_predict(x[:, None]))
print("d:", a.d, b.d); print("fitted 1-D  :", ra[:3]); print("fitted (n,1):", rb[:3])
bad = not np.allclose(ra, rb, rtol=1e-8)
print("VIOLATION" if bad else "ok")
sys.exit(1 if bad else 0)
