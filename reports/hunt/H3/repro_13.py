import sys, logging, warnings
sys.path.insert(0, sys.argv[1] if len(sys.argv) > 1 else "/tmp/hunt/H3/repo")
warnings.filterwarnings("ignore")
import numpy as np
import mellon
logging.getLogger("mellon").setLevel(logging.CRITICAL)
# C12 (borderline): for a predictor fitted on a single-column 2-D y, value/gradient/hessian keep the output axis
# ((n,1), (n,1,d), (n,1,d,d)) but hessian_log_determinant drops it ((n,) instead of (n,1)).
rng = np.random.default_rng(0)
X = rng.normal(size=(15, 2)); Y = np.sin(X[:, :1]); Q = rng.normal(size=(4, 2))
p = mellon.FunctionEstimator(ls=1.0).fit(X, Y).predict
H = np.asarray(p.hessian(Q)); s, l = p.hessian_log_determinant(Q)
print("value", np.asarray(p(Q)).shape, "gradient", np.asarray(p.gradient(Q)).shape, "hessian", H.shape, "sign/logdet", np.asarray(s).shape, np.asarray(l).shape)
s2, l2 = np.linalg.slogdet(H)
print("slogdet of the returned Hessian has shape", s2.shape)
bad = np.asarray(s).shape != s2.shape
print("VIOLATION" if bad else "ok")
sys.exit(1 if bad else 0)
