# C20 (borderline): strings that name no option are accepted as gp_type through substring matching:
# '' -> full, ' ' and '_' -> full_nystroem, 'x' -> fixed.
import sys, logging, warnings
sys.path.insert(0, sys.argv[1] if len(sys.argv) > 1 else "/tmp/hunt/H3/repo")
warnings.filterwarnings("ignore")
import numpy as np
import mellon
logging.getLogger("mellon").setLevel(logging.CRITICAL)
X = np.random.default_rng(0).normal(size=(20, 2))
bad = False
for s in ["", " ", "_", "x", "bogus"]:
    try:
        e = mellon.DensityEstimator(gp_type=s); e.fit(X)
        print(repr(s), "accepted as", e.gp_type); bad = True
    except (ValueError, TypeError) as ex:
        print(repr(s), "refused:", type(ex).__name__)
print("VIOLATION" if bad else "ok")
sys.exit(1 if bad else 0)
