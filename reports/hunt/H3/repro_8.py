import sys, logging, warnings
sys.path.insert(0, sys.argv[1] if len(sys.argv) > 1 else "/tmp/hunt/H3/repo")
warnings.filterwarnings("ignore")
import numpy as np
import mellon
logging.getLogger("mellon").setLevel(logging.CRITICAL)
# C19: the sign bit of a NaN (x86 default NaN 0xFFF8..., produced by 0/0, inf-inf, inf*0) is lost in the JSON round trip.
import json, struct, jax.numpy as jnp
from mellon.util import make_serializable, deserialize
rt = lambda v: deserialize(json.loads(json.dumps(make_serializable(v))))
z = jnp.zeros(2)
a = z / z                                  # ordinary hardware NaN inside a float64 jax array
b = rt(a)
ha, hb = np.asarray(a).tobytes().hex(), np.asarray(b).tobytes().hex()
print("array  before:", ha, " after:", hb, " dtype/shape kept:", a.dtype == b.dtype and a.shape == b.shape)
s = -float("nan")                          # Python float NaN with the sign bit set
sa, sb = struct.pack(">d", s).hex(), struct.pack(">d", rt(s)).hex()
print("scalar before:", sa, " after:", sb)
bad = ha != hb or sa != sb
print("VIOLATION" if bad else "ok")
sys.exit(1 if bad else 0)
