import sys, logging, warnings
sys.path.insert(0, sys.argv[1] if len(sys.argv) > 1 else "/tmp/hunt/H3/repo")
warnings.filterwarnings("ignore")
import numpy as np
import mellon
logging.getLogger("mellon").setLevel(logging.CRITICAL)
# C20: NaN prediction at a finite query point (Matern kernels, default kernel of every estimator).
rng = np.random.default_rng(0)
X = rng.normal(size=(24, 2))
p = mellon.DensityEstimator().fit(X).predict          # default Matern52
q = np.array([[1e155, 0.0]])                          # finite query point
m = np.asarray(p(q)); print("mean at [1e155, 0]:", m, " (ExpQuad returns mu:",
      np.asarray(mellon.DensityEstimator(cov_func_curry=mellon.cov.ExpQuad).fit(X).predict(q)), ")")
bad = bool(np.isnan(m).any())
print("VIOLATION" if bad else "ok")
sys.exit(1 if bad else 0)
