import sys, logging, warnings
sys.path.insert(0, sys.argv[1] if len(sys.argv) > 1 else "/tmp/hunt/H3/repo")
warnings.filterwarnings("ignore")
import numpy as np
import mellon
logging.getLogger("mellon").setLevel(logging.CRITICAL)
# C20: DimensionalityEstimator never sanitises zero nearest-neighbour distances of duplicate cells.
rng = np.random.default_rng(0)
n = 60
X = rng.normal(size=(n, 2)); X[1] = X[0]          # ONE duplicated cell
bad = False
# (a) reference: DensityEstimator sanitises the same data and fits
ref = np.asarray(mellon.DensityEstimator().fit_predict(X)); print("DensityEstimator finite:", np.isfinite(ref).all())
# (b) default DimensionalityEstimator: refused, although a valid distance exists for 58 cells
try:
    r = np.asarray(mellon.DimensionalityEstimator().fit_predict(X)); print("default: finite", np.isfinite(r).all())
    if not np.isfinite(r).all(): bad = True
except Exception as e:
    print("default DimensionalityEstimator refused:", type(e).__name__, str(e)[:90]); bad = True
# (c) with explicit parameters nothing is refused and the fitted values are NaN
est = mellon.DimensionalityEstimator(ls=1.0, d=2.0, mu_dens=-5.0, initial_value=np.zeros((2, n)), optimizer="adam", n_iter=20)
try:
    r = np.asarray(est.fit_predict(X)); p = np.asarray(est.predict(X[:3]))
    print("explicit parameters: local_dim", r[:3], "log_density", np.asarray(est.log_density_x)[:3], "predict", p)
    if np.isnan(r).any() or np.isnan(p).any(): bad = True
except (ValueError, TypeError) as e:
    print("explicit parameters refused:", e)
print("VIOLATION" if bad else "ok")
sys.exit(1 if bad else 0)
