import sys, logging, warnings
sys.path.insert(0, sys.argv[1] if len(sys.argv) > 1 else "/tmp/hunt/H3/repo")
warnings.filterwarnings("ignore")
import numpy as np
import mellon
logging.getLogger("mellon").setLevel(logging.CRITICAL)
# C13 (borderline): with time supplied as the trailing column of x, the derivative methods cannot be called like
# mean/covariance: `time` is a required positional parameter, so p.gradient(Xt) raises TypeError (p.gradient(Xt, None) works).
rng = np.random.default_rng(0)
n = 24
X = rng.normal(size=(n, 2)); t = np.repeat([0.0, 1.0], n // 2)
p = mellon.TimeSensitiveDensityEstimator(ls_time=1.0).fit(X, t).predict
Xt = np.column_stack([X[:3], [0.5, 0.5, 1.0]])
print("mean(Xt) works:", np.asarray(p.mean(Xt)).shape)
bad = False
for m in ["gradient", "hessian", "hessian_log_determinant", "time_derivative"]:
    try:
        getattr(p, m)(Xt); print(m, "(Xt) works")
    except TypeError as e:
        print(m, "(Xt) ->", type(e).__name__, e); bad = True
print("VIOLATION" if bad else "ok")
sys.exit(1 if bad else 0)
