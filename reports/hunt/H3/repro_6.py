import sys, logging, warnings
sys.path.insert(0, sys.argv[1] if len(sys.argv) > 1 else "/tmp/hunt/H3/repo")
warnings.filterwarnings("ignore")
import numpy as np
import mellon
logging.getLogger("mellon").setLevel(logging.CRITICAL)
# C20: TimeSensitiveDensityEstimator and its predictors refuse 1-D cell states instead of treating them as one feature.
rng = np.random.default_rng(2)
x = rng.normal(size=30); t = np.repeat([0.0, 1.0, 2.0], 10); q = np.array([0.1, 0.2, -0.4])
bad = False
print("DensityEstimator 1-D fit ok:", np.isfinite(np.asarray(mellon.DensityEstimator().fit_predict(x))).all())
try:
    r = mellon.TimeSensitiveDensityEstimator(ls_time=1.0).fit_predict(x, t); print("fit 1-D ok")
except Exception as e:
    print("fit(x1d, times) refused:", type(e).__name__, e); bad = True
p = mellon.TimeSensitiveDensityEstimator(ls_time=1.0).fit(x[:, None], t).predict
print("predict (n,1):", np.asarray(p(q[:, None], 1.0)))
try:
    print("predict 1-D:", np.asarray(p(q, 1.0)))
except Exception as e:
    print("predict(x1d, time) refused:", type(e).__name__, e); bad = True
print("VIOLATION" if bad else "ok")
sys.exit(1 if bad else 0)
