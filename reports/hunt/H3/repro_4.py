import sys, logging, warnings
sys.path.insert(0, sys.argv[1] if len(sys.argv) > 1 else "/tmp/hunt/H3/repo")
warnings.filterwarnings("ignore")
import numpy as np
import mellon
logging.getLogger("mellon").setLevel(logging.CRITICAL)
# C20: one duplicated cell + normalize_per_time_point -> refused ("'ls' should be a positive float number").
rng = np.random.default_rng(0)
n = 40
X = rng.normal(size=(n, 2)); t = np.repeat([0.0, 1.0], n // 2)
X[1] = X[0]                                        # one duplicated cell inside time point 0
ok = np.asarray(mellon.TimeSensitiveDensityEstimator(ls_time=1.0).fit_predict(X, t))
print("without normalisation: finite fit", np.isfinite(ok).all())
bad = False
for norm in [True, [20, 20], {0.0: 20, 1.0: 20}]:
    try:
        r = np.asarray(mellon.TimeSensitiveDensityEstimator(ls_time=1.0, normalize_per_time_point=norm).fit_predict(X, t))
        print("normalize =", norm, "finite fit", np.isfinite(r).all())
        if not np.isfinite(r).all(): bad = True
    except Exception as e:
        print("normalize =", norm, "refused:", type(e).__name__, e); bad = True
print("VIOLATION" if bad else "ok")
sys.exit(1 if bad else 0)
