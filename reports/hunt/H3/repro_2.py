import sys, logging, warnings
sys.path.insert(0, sys.argv[1] if len(sys.argv) > 1 else "/tmp/hunt/H3/repo")
warnings.filterwarnings("ignore")
import numpy as np
import mellon
logging.getLogger("mellon").setLevel(logging.CRITICAL)
# C20: the NaN scalar d=nan is accepted (validator returns nan) and propagates to NaN fitted values.
from mellon.validation import validate_float_or_iterable_numerical
rng = np.random.default_rng(0)
n = 30
X = rng.normal(size=(n, 2)); Q = rng.normal(size=(3, 2))
bad = False
try:
    v = validate_float_or_iterable_numerical(float("nan"), "d", positive=True)
    print("validate_float_or_iterable_numerical(nan) returned", v); bad = True
except (ValueError, TypeError) as e:
    print("validator refused:", e)
try:
    est = mellon.DensityEstimator(d=float("nan"), mu=0.0, initial_value=np.zeros(n), optimizer="adam", n_iter=5)
    fitted = np.asarray(est.fit_predict(X)); pred = np.asarray(est.predict(Q))
    print("fitted:", fitted[:3], "pred:", pred)
    if np.isnan(fitted).any() or np.isnan(pred).any(): bad = True
except (ValueError, TypeError) as e:
    print("estimator refused:", e)
print("VIOLATION" if bad else "ok")
sys.exit(1 if bad else 0)
