import sys, logging, warnings
sys.path.insert(0, sys.argv[1] if len(sys.argv) > 1 else "/tmp/hunt/H3/repo")
warnings.filterwarnings("ignore")
import numpy as np
import mellon
logging.getLogger("mellon").setLevel(logging.CRITICAL)
# C19: input that is not a serialised kernel is refused with KeyError / AttributeError / TypeError instead of ValueError.
import copy
from mellon.cov import Matern52, ExpQuad, Covariance
good = (Matern52(1.2) * 2.0 + ExpQuad(0.5)).to_dict()
cases = {"marker only": {"type": "mellon.Covariance"}}
d = copy.deepcopy(good); del d["metadata"]; cases["kernel dict without metadata"] = d
d = copy.deepcopy(good); del d["right_data"]; cases["sum without right operand"] = d
d = copy.deepcopy(good["right_data"]); del d["data"]; cases["kernel without data"] = d
d = copy.deepcopy(good["right_data"]); d["metadata"]["classname"] = "NoSuchKernel"; cases["unknown class name"] = d
d = copy.deepcopy(good["right_data"]); d["metadata"]["classname"] = "Covariance"; cases["abstract class name"] = d
bad = False
for name, c in cases.items():
    try:
        Covariance.from_dict(c); print(name, "-> accepted"); bad = True
    except ValueError as e:
        print(name, "-> ValueError (as demanded)")
    except Exception as e:
        print(name, "->", type(e).__name__, str(e)[:70]); bad = True
print("VIOLATION" if bad else "ok")
sys.exit(1 if bad else 0)
