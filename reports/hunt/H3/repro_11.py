import sys, logging, warnings
sys.path.insert(0, sys.argv[1] if len(sys.argv) > 1 else "/tmp/hunt/H3/repo")
warnings.filterwarnings("ignore")
import numpy as np
import mellon
logging.getLogger("mellon").setLevel(logging.CRITICAL)
# C07 (borderline): re-serialising a reloaded predictor does not give the same content apart from the timestamp:
# the state-variable set is stored as a JSON list whose order (and the key order of "data") depends on set
# insertion history.  String hashing is randomised per process, so the script re-executes itself with PYTHONHASHSEED=8.
import os, json, copy
if os.environ.get("PYTHONHASHSEED") != "8":
    os.environ["PYTHONHASHSEED"] = "8"
    os.execv(sys.executable, [sys.executable] + sys.argv)
from mellon.conditional import FullConditional
from mellon.cov import Matern52
rng = np.random.default_rng(1)
X = rng.normal(size=(12, 3)); y = rng.normal(size=12)
p = FullConditional(X, y, 0.1, Matern52(1.3), sigma=0.1, with_uncertainty=True)
q = mellon.Predictor.from_json_str(p.to_json())
def strip(d):
    d = copy.deepcopy(d)
    def rec(o):
        if isinstance(o, dict):
            o.pop("serialization_date", None); [rec(v) for v in o.values()]
        elif isinstance(o, list): [rec(v) for v in o]
    rec(d); return d
a, b = strip(json.loads(p.to_json())), strip(json.loads(q.to_json()))
print("state variables original:", a["data"]["_state_variables"]["data"])
print("state variables reloaded:", b["data"]["_state_variables"]["data"])
bad = a != b
print("JSON data equal:", a == b, "| JSON text equal:", json.dumps(a) == json.dumps(b))
print("VIOLATION" if bad else "ok")
sys.exit(1 if bad else 0)
