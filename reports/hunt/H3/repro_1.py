import sys, logging, warnings
sys.path.insert(0, sys.argv[1] if len(sys.argv) > 1 else "/tmp/hunt/H3/repo")
warnings.filterwarnings("ignore")
import numpy as np
import mellon
logging.getLogger("mellon").setLevel(logging.CRITICAL)
# C20: FunctionEstimator accepts mu=inf and silently returns NaN fitted values / predictions.
rng = np.random.default_rng(0)
X = rng.normal(size=(20, 2)); y = np.sin(X[:, 0]); Q = rng.normal(size=(3, 2))
bad = False
for mu in [float("inf"), -float("inf")]:
    try:
        est = mellon.FunctionEstimator(mu=mu)          # accepted at construction
        fitted = np.asarray(est.fit_predict(X, y))      # accepted at fit
        pred = np.asarray(est.predict(Q))               # accepted at call
    except (ValueError, TypeError) as e:
        print("mu =", mu, "refused:", e); continue
    print("mu =", mu, "fitted:", fitted[:3], "pred:", pred)
    if np.isnan(fitted).any() or np.isnan(pred).any():
        bad = True
print("VIOLATION" if bad else "ok")
sys.exit(1 if bad else 0)
