import sys, logging, warnings
sys.path.insert(0, sys.argv[1] if len(sys.argv) > 1 else "/tmp/hunt/H3/repo")
warnings.filterwarnings("ignore")
import numpy as np
import mellon
logging.getLogger("mellon").setLevel(logging.CRITICAL)
# C07 (borderline): str and Path file names are treated differently.  With compress given by keyword and a name without
# the matching extension, a str name is silently changed ("model" -> "model.gz") so reading back the name that was
# passed fails, while a Path is written under exactly the name given (contradicting the documented extension handling).
import tempfile, os, pathlib
from mellon.conditional import FullConditional
from mellon.cov import Matern52
rng = np.random.default_rng(1)
p = FullConditional(rng.normal(size=(6, 2)), rng.normal(size=6), 0.0, Matern52(1.0))
bad = False
for typ in (pathlib.Path, str):
    d = tempfile.mkdtemp(); f = typ(os.path.join(d, "model"))
    p.to_json(f, compress="gzip")
    print(typ.__name__, "written files:", os.listdir(d), end="  ")
    try:
        mellon.Predictor.from_json(f, compress="gzip"); print("read back ok")
    except Exception as e:
        print("read back ->", type(e).__name__); bad = True
print("VIOLATION" if bad else "ok")
sys.exit(1 if bad else 0)
