"""C09 / C06: with noise sigma > 0 the full model's `covariance` (and `uncertainty`) disagrees with the
inducing-point model whose inducing points ARE the training cells, by O(sigma^2) instead of O(jitter);
the full model's variance at its conditioning points (training cells) is O(sigma^2), not O(jitter)."""
import sys
sys.path.insert(0, sys.argv[1] if len(sys.argv) > 1 else "/tmp/hunt/H5/repo")
import logging
import numpy as np
import mellon
from mellon.cov import Matern52

logging.getLogger("mellon").setLevel(logging.CRITICAL)
rng = np.random.default_rng(5)
n = 20
x = rng.normal(size=(n, 2))
y = np.sin(x[:, 0]) + 0.1 * rng.normal(size=n)
Xq = np.vstack([x[:3], rng.normal(size=(4, 2))])
cov = Matern52(1.0)
jitter = 1e-6
bad = False
for sigma in [0.0, 0.3, np.full(n, 0.3)]:
    kw = dict(cov_func=cov, sigma=sigma, jitter=jitter, predictor_with_uncertainty=True)
    full = mellon.FunctionEstimator(gp_type="full", **kw).fit(x, y).predict
    fixed = mellon.FunctionEstimator(gp_type="fixed", n_landmarks=n, **kw).fit(x, y).predict       # landmarks == cells
    sparse = mellon.FunctionEstimator(gp_type="fixed", landmarks=x.copy(), **kw).fit(x, y).predict  # explicit landmarks == cells
    for name, p in [("fixed(n_landmarks=n)", fixed), ("fixed(landmarks=x)", sparse)]:
        d_mean = np.abs(np.array(full(Xq) - p(Xq))).max()
        d_mc = np.abs(np.array(full.mean_covariance(Xq) - p.mean_covariance(Xq))).max()
        d_cov = np.abs(np.array(full.covariance(Xq) - p.covariance(Xq))).max()
        d_unc = np.abs(np.array(full.uncertainty(Xq) - p.uncertainty(Xq))).max()
        print(f"sigma={np.ravel(sigma)[0]} ({'vector' if np.ndim(sigma) else 'scalar'}) full vs {name}: "
              f"mean {d_mean:.1e}  mean_cov {d_mc:.1e}  covariance {d_cov:.1e}  uncertainty {d_unc:.1e}")
        if d_cov > 1e3 * jitter:
            bad = True
    v = np.array(full.covariance(x[:3]))
    print(f"   full-model variance at 3 training cells: {v}   (jitter={jitter})")
    if v.max() > 1e3 * jitter:
        bad = True
print("VIOLATION" if bad else "ok")
sys.exit(1 if bad else 0)
