"""C15: option validation of the FunctionEstimator lets contradictions / invalid options pass silently
 (a) a per-cell sigma of the wrong length is accepted when y_is_mean=True and predictor_with_uncertainty=False
     (refused in every other combination);
 (b) optimizer / n_iter / init_learn_rate are swallowed unvalidated and discarded (est.optimizer misreports);
 (c) a NumPy scalar sigma other than float64 is refused with a TypeError although np.float64 and 0-d arrays pass."""
import sys
sys.path.insert(0, sys.argv[1] if len(sys.argv) > 1 else "/tmp/hunt/H5/repo")
import logging
import numpy as np
import mellon
from mellon.cov import Matern52

logging.getLogger("mellon").setLevel(logging.CRITICAL)
rng = np.random.default_rng(2)
n = 12
x = rng.normal(size=(n, 2)); y = rng.normal(size=n)
bad = False
print("(a) sigma with n-1 entries for n cells")
for cfg in (dict(gp_type="full"), dict(n_landmarks=5), dict(gp_type="fixed", n_landmarks=n + 1)):
    for yim in (False, True):
        for wu in (False, True):
            try:
                mellon.FunctionEstimator(cov_func=Matern52(1.0), sigma=np.full(n - 1, 0.2), y_is_mean=yim,
                                         predictor_with_uncertainty=wu, **cfg).fit(x, y)
                print(f"   {cfg} y_is_mean={yim} with_uncertainty={wu}: ACCEPTED silently"); bad = True
            except ValueError as e:
                print(f"   {cfg} y_is_mean={yim} with_uncertainty={wu}: ValueError")
print("(b) optimizer options")
for kw in (dict(optimizer="bogus"), dict(optimizer="advi"), dict(n_iter=-5), dict(init_learn_rate="x")):
    try:
        est = mellon.FunctionEstimator(**kw)
        k = next(iter(kw))
        print(f"   FunctionEstimator({kw}) accepted; est.{k} = {getattr(est, k)!r}"); bad = True
    except (ValueError, TypeError) as e:
        print(f"   FunctionEstimator({kw}) refused: {e}")
    try:
        mellon.DensityEstimator(**kw); print(f"   DensityEstimator({kw}) accepted")
    except (ValueError, TypeError) as e:
        print(f"   DensityEstimator({kw}) refused: {type(e).__name__}")
print("(c) NumPy scalar sigma")
for s in (np.float64(0.3), np.array(0.3), np.float32(0.3), np.int64(1)):
    try:
        mellon.FunctionEstimator(cov_func=Matern52(1.0), sigma=s).fit(x, y)
        print(f"   sigma={type(s).__name__}: ok")
    except ValueError as e:
        print(f"   sigma={type(s).__name__}: ValueError {e}")
    except Exception as e:
        print(f"   sigma={type(s).__name__}: {type(e).__name__}: {e}"); bad = True
print("VIOLATION" if bad else "ok")
sys.exit(1 if bad else 0)
