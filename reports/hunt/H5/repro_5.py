"""C06 (latent-std input uncertainty) / C15 (no internal errors): the inducing-point predictor
(_LandmarksConditional) reads a noise factor `y_cov_factor` as one row per LANDMARK when it builds the mean
but as one row per CELL when it builds the uncertainty.  With y_is_mean=False, m != n no factor can satisfy both:
  * rows = n (what mellon.inference.compute_conditional passes for latent stds `pre_transformation_std`):
    refused with a stale message ('A per-cell `sigma` cannot be combined with landmarks') -- although the very
    same call with with_uncertainty=False builds the predictor and the mean does not depend on the factor;
  * rows = m: accepted for the mean, then with_uncertainty=True dies with an internal jax TypeError (shape error).
"""
import sys
sys.path.insert(0, sys.argv[1] if len(sys.argv) > 1 else "/tmp/hunt/H5/repo")
import logging
import numpy as np
import mellon
from mellon.cov import Matern52
from mellon.inference import compute_conditional
from mellon.parameters import compute_L
from mellon.conditional import LandmarksConditional

logging.getLogger("mellon").setLevel(logging.CRITICAL)
rng = np.random.default_rng(5)
n, m = 20, 6
x = rng.normal(size=(n, 2)); xu = x[:m] + 0.05
cov = Matern52(1.0)
L = compute_L(x, cov, gp_type="sparse_nystroem", landmarks=xu, rank=4)     # (n, 4) latent factor
pre = rng.normal(size=L.shape[1]); std = 0.1 * np.abs(rng.normal(size=L.shape[1]))
y = np.array(L @ pre)
bad = False
print("compute_conditional(x, landmarks, pre_transformation, pre_transformation_std, y, ..., sigma=0)")
for yim in (True, False):
    for wu in (False, True):
        try:
            p = compute_conditional(x, xu, pre, std, y, 0.0, cov, L, None, sigma=0, y_is_mean=yim, with_uncertainty=wu)
            print(f"   y_is_mean={yim} with_uncertainty={wu}: {type(p).__name__} built")
        except Exception as e:
            print(f"   y_is_mean={yim} with_uncertainty={wu}: {type(e).__name__}: {str(e)[:150]}")
            bad = True
print("LandmarksConditional(x, xu, y, mu, cov, sigma=0, y_cov_factor=F, y_is_mean=False)")
yy = rng.normal(size=n)
for rows in (m, n):
    for wu in (False, True):
        try:
            LandmarksConditional(x, xu, yy, 0.0, cov, sigma=0, y_cov_factor=0.1 * np.eye(rows), y_is_mean=False, with_uncertainty=wu)
            print(f"   F with {rows} rows (m={m}, n={n}) with_uncertainty={wu}: built")
        except ValueError as e:
            print(f"   F with {rows} rows (m={m}, n={n}) with_uncertainty={wu}: ValueError: {str(e)[:120]}")
        except Exception as e:
            print(f"   F with {rows} rows (m={m}, n={n}) with_uncertainty={wu}: INTERNAL {type(e).__name__}: {str(e)[:120]}")
            bad = True
print("VIOLATION" if bad else "ok")
sys.exit(1 if bad else 0)
