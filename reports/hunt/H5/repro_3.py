"""C15: gp_type='fixed' + explicit landmarks with exactly n rows + a contradicting n_landmarks > n is
accepted silently (every other landmark count is refused with 'There are m landmarks specified but
n_landmarks=...')."""
import sys
sys.path.insert(0, sys.argv[1] if len(sys.argv) > 1 else "/tmp/hunt/H5/repo")
import logging
import numpy as np
import mellon
from mellon.cov import Matern52

logging.getLogger("mellon").setLevel(logging.CRITICAL)
rng = np.random.default_rng(2)
bad = False
for n in (6, 12):
    x = rng.normal(size=(n, 2))
    y = rng.normal(size=n)
    for Est, args in [(mellon.FunctionEstimator, (x, y)), (mellon.DensityEstimator, (x,))]:
        for m in (n - 2, n, n + 2):
            lm = rng.normal(size=(m, 2))          # user landmarks, NOT the cells
            for nl in (n + 1, 5000):
                try:
                    est = Est(cov_func=Matern52(1.0), gp_type="fixed", landmarks=lm, n_landmarks=nl)
                    est.fit(*args)
                    used = est.predict.landmarks.shape[0]
                    print(f"{Est.__name__} n={n} landmarks rows={m} n_landmarks={nl}: ACCEPTED silently, "
                          f"est.n_landmarks={est.n_landmarks}, landmarks used={used}")
                    bad = True
                except ValueError as e:
                    print(f"{Est.__name__} n={n} landmarks rows={m} n_landmarks={nl}: ValueError: {str(e)[:70]}")
print("VIOLATION" if bad else "ok")
sys.exit(1 if bad else 0)
