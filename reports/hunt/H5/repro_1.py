"""C06 / C16: per-cell sigma below sqrt(jitter) -- mean_covariance propagates sqrt(jitter), not the stated sigma.

An equal-entry sigma vector is not equivalent to the scalar, and mean_covariance is not the
linear propagation of the stated noise through the mean function (inducing-point predictor).
"""
import sys
sys.path.insert(0, sys.argv[1] if len(sys.argv) > 1 else "/tmp/hunt/H5/repo")
import logging
import numpy as np
import mellon
from mellon.cov import Matern52

logging.getLogger("mellon").setLevel(logging.CRITICAL)
rng = np.random.default_rng(0)
n, m = 30, 8
x = rng.normal(size=(n, 2))
xu = x[:m] + 0.01
y = np.sin(x[:, 0]) + 0.1 * rng.normal(size=n)
Xq = rng.normal(size=(7, 2))
cov = Matern52(1.2)
jitter = 1e-3          # legal: 1e-8 .. 1e-3
s = 0.01               # legal: 0 < sigma < sqrt(jitter) = 0.0316


def fit(sigma):
    est = mellon.FunctionEstimator(cov_func=cov, landmarks=xu, sigma=sigma, jitter=jitter,
                                   gp_type="sparse_cholesky", predictor_with_uncertainty=True)
    est.fit(x, y)
    return est.predict


def jacobian(sigma):
    """The mean is linear in y (mu=0): fitting the n unit vectors as value columns gives
    J = d mean(Xq) / d y, the mean function's own linear map, with the public API only."""
    est = mellon.FunctionEstimator(cov_func=cov, landmarks=xu, sigma=sigma, jitter=jitter,
                                   gp_type="sparse_cholesky")
    return np.array(est.fit_predict(x, np.eye(n), Xq))


bad = False
for name, vec, scal in [("s=0.01", np.full(n, s), s), ("s=0", np.zeros(n), 0.0)]:
    p_vec, p_sc = fit(vec), fit(scal)
    mean_diff = np.abs(np.array(p_vec(Xq)) - np.array(p_sc(Xq))).max()
    mc_vec = np.array(p_vec.mean_covariance(Xq, diag=False))
    mc_sc = np.array(p_sc.mean_covariance(Xq, diag=False))
    J = jacobian(vec)                      # the mean function's own linear map y -> mean(Xq)
    want = J @ np.diag(vec ** 2) @ J.T     # linear propagation of the STATED noise
    print(f"[{name}] mean vec-vs-scalar {mean_diff:.1e}")
    print(f"   mean_covariance diag  vector: {np.diag(mc_vec)[:3]}")
    print(f"   mean_covariance diag  scalar: {np.diag(mc_sc)[:3]}")
    print(f"   J diag(sigma^2) J^T         : {np.diag(want)[:3]}")
    print(f"   |vector - propagated| = {np.abs(mc_vec - want).max():.2e}   |scalar - propagated| = {np.abs(mc_sc - want).max():.2e}")
    unc = np.abs(np.array(p_vec.uncertainty(Xq)) - np.array(p_sc.uncertainty(Xq))).max()
    print(f"   uncertainty vector-vs-scalar {unc:.2e}")
    tol = 1e-9 * max(1.0, np.abs(want).max())
    if np.abs(mc_vec - want).max() > 1e-6 and np.abs(mc_sc - want).max() < 1e-9 + tol:
        bad = True
print("VIOLATION" if bad else "ok")
sys.exit(1 if bad else 0)
