"""C15 (staged call order): FunctionEstimator.compute_conditional(x, y) called on a fresh estimator (without
fit / prepare_inference) ignores gp_type and n_landmarks: a model requested as sparse_cholesky / fixed with 5
landmarks silently yields the FullConditional predictor (no landmarks, no validation, no error)."""
import sys
sys.path.insert(0, sys.argv[1] if len(sys.argv) > 1 else "/tmp/hunt/H5/repo")
import logging
import numpy as np
import mellon
from mellon.cov import Matern52

logging.getLogger("mellon").setLevel(logging.CRITICAL)
rng = np.random.default_rng(2)
n = 12
x = rng.normal(size=(n, 2)); y = rng.normal(size=n)
bad = False
for cfg in (dict(gp_type="sparse_cholesky", n_landmarks=5), dict(gp_type="fixed", n_landmarks=5),
            dict(gp_type="sparse_cholesky", n_landmarks=0), dict(gp_type="full", n_landmarks=3)):
    est = mellon.FunctionEstimator(cov_func=Matern52(1.0), sigma=np.full(n, 0.2), **cfg)
    try:
        p = est.compute_conditional(x, y)
        print(f"{cfg}: compute_conditional -> {type(p).__name__}, est.gp_type={est.gp_type}, est.landmarks={est.landmarks}")
        fitted = None
        try:
            fitted = type(mellon.FunctionEstimator(cov_func=Matern52(1.0), sigma=np.full(n, 0.2), **cfg).fit(x, y).predict).__name__
        except ValueError as e:
            fitted = f"ValueError({str(e)[:60]}...)"
        print(f"     the same options through fit(): {fitted}")
        if fitted != type(p).__name__:
            bad = True
    except ValueError as e:
        print(f"{cfg}: ValueError {e}")
print("VIOLATION" if bad else "ok")
sys.exit(1 if bad else 0)
