"""C17: jit on / off do NOT agree to rounding for the default optimiser on the DimensionalityEstimator.

Identical data, identical explicit inducing points, optimizer='L-BFGS-B'; only `jit` differs.  The starting point
and the starting loss are bit-identical, but the two L-BFGS-B runs take a different number of iterations
(105 vs 111 here), stop at different final losses (difference ~1e-5) and return local dimensionalities /
log-densities that differ by ~2e-4 - twelve orders of magnitude above rounding (adam and advi with 200 iterations
agree to ~1e-15 on the same problem, and the density estimators agree bitwise).
"""
import sys, logging, warnings
sys.path.insert(0, sys.argv[1] if len(sys.argv) > 1 else "/tmp/hunt/H4/repo")
import numpy as np
import mellon

logging.getLogger("mellon").setLevel(logging.CRITICAL)
warnings.filterwarnings("ignore")
print("mellon from", mellon.__file__)
rng = np.random.default_rng(0)
n = 60
X = rng.normal(size=(n, 3))
res = {}
for jit in (False, True):
    m = mellon.DimensionalityEstimator(gp_type="fixed", landmarks=X[:15], jit=jit)
    m.prepare_inference(X)
    f0 = float(m.loss_func(m.initial_value))
    m.run_inference(); m.process_inference()
    print(f"jit={jit}: start loss {f0!r}, final loss {m.losses[-1]!r}, iterations {int(m.opt_state.iter_num)}, success {bool(m.opt_state.success)}")
    res[jit] = m
a, b = res[False], res[True]
worst = 0.0
for nm in ("initial_value", "pre_transformation", "local_dim_x", "log_density_x"):
    u, v = np.asarray(getattr(a, nm)), np.asarray(getattr(b, nm))
    dev = np.abs(u - v).max() / max(1.0, np.abs(u).max())
    print(f"{nm}: max relative deviation jit on/off = {dev:.3g}")
    if nm != "initial_value": worst = max(worst, dev)
# "agreeing to rounding": generous 1e-9 (eps * 1e7)
bad = worst > 1e-9
print("VIOLATION" if bad else "ok")
sys.exit(1 if bad else 0)
