"""C15: an integer rank given as a NumPy integer is silently turned into a float and resolves to the wrong GP type.

rank=2 (small integer rank) resolves to the Nystroem variant with a latent factor of 2 columns.  rank=np.int64(2) -
the same number, e.g. taken from an array or computed with NumPy - passes validate_float_or_int as float(2.0), which
the resolution rules read as "fraction >= 1.0 -> full rank": the model silently becomes a FULL GP with an n x n factor,
and with gp_type='full_nystroem' the same value is refused although 0 < 2 < n.
"""
import sys, logging, warnings
sys.path.insert(0, sys.argv[1] if len(sys.argv) > 1 else "/tmp/hunt/H4/repo")
import numpy as np
import mellon

logging.getLogger("mellon").setLevel(logging.CRITICAL)
warnings.filterwarnings("ignore")
print("mellon from", mellon.__file__)
rng = np.random.default_rng(0)
n = 12
X = rng.normal(size=(n, 2))
bad = False
for Est, kw in ((mellon.DensityEstimator, {}), (mellon.DimensionalityEstimator, dict(k=3))):
    a = Est(rank=2, **kw).fit(X)
    b = Est(rank=np.int64(2), **kw).fit(X)
    print(Est.__name__, "rank=2 ->", a.gp_type, a.L.shape, "| rank=np.int64(2) ->", b.gp_type, b.L.shape, "stored rank", repr(b.rank))
    bad |= (a.gp_type != b.gp_type) or (a.L.shape != b.L.shape)
    a = Est(rank=2, landmarks=X[:6], **kw).fit(X)
    b = Est(rank=np.int32(2), landmarks=X[:6], **kw).fit(X)
    print(Est.__name__, "6 landmarks: rank=2 ->", a.gp_type, a.L.shape, "| rank=np.int32(2) ->", b.gp_type, b.L.shape)
    bad |= (a.gp_type != b.gp_type) or (a.L.shape != b.L.shape)
try:
    mellon.DensityEstimator(rank=np.int64(2), gp_type="full_nystroem").fit(X)
    print("full_nystroem + np.int64(2): accepted")
except ValueError as e:
    print("full_nystroem + np.int64(2): refused:", str(e)[:140]); bad = True
print("VIOLATION" if bad else "ok")
sys.exit(1 if bad else 0)
