"""C18 (and C15): a second fit()/fit_predict()/prepare_inference() without new data fails after a successful first
fit when gp_type='fixed' and n_landmarks exceeds the number of cells.

The combination (gp_type='fixed', n_landmarks > n, no explicit landmarks) is ACCEPTED: the first fit logs a warning,
uses all n cells as inducing points and returns a LandmarksConditionalCholesky predictor.  It leaves the model in
the self-contradictory state n_landmarks=n+1 / landmarks.shape[0]=n, so every later staged call that re-validates
the parameters (fit(), fit_predict(), prepare_inference(None), __call__()) raises
"There are n landmarks specified but n_landmarks=n+1", and feeding model.landmarks to a fresh model with the same
parameters is refused as well.  C18 demands that repeated fit / fit_predict without new data ends with the same
fitted values as the single fit.
"""
import sys, logging, warnings
sys.path.insert(0, sys.argv[1] if len(sys.argv) > 1 else "/tmp/hunt/H4/repo")
import numpy as np
import mellon

logging.getLogger("mellon").setLevel(logging.CRITICAL)
warnings.filterwarnings("ignore")
print("mellon from", mellon.__file__)

rng = np.random.default_rng(0)
n = 12
X = rng.normal(size=(n, 2))
Xt = np.hstack([X, np.repeat([0.0, 1.0], n // 2)[:, None]])
bad = False
cases = [
    ("DensityEstimator", lambda nl: mellon.DensityEstimator(gp_type="fixed", n_landmarks=nl), X),
    ("TimeSensitiveDensityEstimator", lambda nl: mellon.TimeSensitiveDensityEstimator(gp_type="fixed", n_landmarks=nl, ls_time=1.0), Xt),
    ("DimensionalityEstimator", lambda nl: mellon.DimensionalityEstimator(gp_type="fixed", n_landmarks=nl, k=3), X),
]
for name, make, data in cases:
    for nl in (n + 1, 5000):
        m = make(nl)
        m.fit(data)  # accepted
        first = np.asarray(m.log_density_x).copy()
        print(f"{name} n={n} n_landmarks={nl}: first fit ok, gp_type={m.gp_type}, landmarks {m.landmarks.shape}, predictor {type(m.predict).__name__}")
        for label, call in (("fit()", lambda: m.fit()), ("fit_predict()", lambda: m.fit_predict()), ("prepare_inference(None)", lambda: m.prepare_inference(None))):
            try:
                call()
                same = np.array_equal(np.asarray(m.log_density_x), first)
                print(f"   {label}: ok, identical={same}")
                bad |= not same
            except Exception as e:
                bad = True
                print(f"   {label}: {type(e).__name__}: {str(e)[:90]}")
        try:
            # fresh model with the same parameters + the cached inducing points
            kw = dict(gp_type="fixed", n_landmarks=nl, landmarks=m.landmarks)
            if name.startswith("Time"): kw["ls_time"] = 1.0
            if name.startswith("Dim"): kw["k"] = 3
            type(m)(**kw).fit(data)
            print("   fresh model with landmarks=model.landmarks: ok")
        except Exception as e:
            bad = True
            print(f"   fresh model with landmarks=model.landmarks: {type(e).__name__}: {str(e)[:90]}")
# the FunctionEstimator (refitted with other function values on the same cells) is hit in the same way
import jax.numpy as jnp
Xj = jnp.asarray(X)
f = mellon.FunctionEstimator(gp_type="fixed", n_landmarks=n + 1)
f.fit(Xj, X[:, 0])
try:
    f.fit(Xj, X[:, 1]); print("FunctionEstimator: second fit ok")
except Exception as e:
    bad = True; print(f"FunctionEstimator: second fit: {type(e).__name__}: {str(e)[:90]}")
print("VIOLATION" if bad else "ok")
sys.exit(1 if bad else 0)
