"""C08: scale covariance is broken by the absolute 1e-12 added to squared distances in mellon.util.distance.

Multiplying all coordinates (cells, landmarks, query points) by a>0 must shift log-densities by exactly
-d*log(a) and scale the automatic length scale by a.  The kernel, however, is evaluated on
sqrt(|x-y|^2 + 1e-12): an ABSOLUTE offset, so k(a*x, a*y; a*ls) != k(x, y; ls) once a*|x-y| or a*ls approach
1e-6.  For a = 1e-3 (inside 1e-3..1e3) and data of spread ~0.05 (typical for diffusion components) the kernel
diagonal drops visibly below 1, the Ridge starting point moves by ~1e-3 and fitted / predicted log-densities
deviate by >1e-3, while the opposite scale a = 1e3 reproduces everything to ~1e-9 (the rounding level).
"""
import sys, logging, warnings
sys.path.insert(0, sys.argv[1] if len(sys.argv) > 1 else "/tmp/hunt/H4/repo")
import numpy as np
import mellon
from mellon.cov import Matern52

logging.getLogger("mellon").setLevel(logging.CRITICAL)
warnings.filterwarnings("ignore")
print("mellon from", mellon.__file__)

rng = np.random.default_rng(1)
n, d = 200, 2
X = 0.05 * rng.normal(size=(n, d))
Q = 0.05 * rng.normal(size=(7, d))
lm = X[:40]

# (1) kernel level: a stationary kernel depends on |x-y|/ls only
ls = 0.05
k1 = np.asarray(Matern52(ls)(X[:5], X[:5]))
fail = False
for a in (1e3, 1e-3):
    ka = np.asarray(Matern52(a * ls)(a * X[:5], a * X[:5]))
    print(f"kernel a={a:g}: max |k(ax,ay;a*ls)-k(x,y;ls)| = {np.abs(ka - k1).max():.3g}  diag-1 = {ka.diagonal().max() - 1:.3g}")

# (2) estimator level (sparse GP with explicit landmarks, deterministic quantities and fitted values)
def fit(a):
    m = mellon.DensityEstimator(gp_type="sparse_cholesky", landmarks=a * lm)
    m.fit(a * X)
    return m, np.asarray(m.log_density_x), np.asarray(m.predict(a * Q))

base, y0, p0 = fit(1.0)
dev = {}
for a in (1e3, 1e-3):
    m, y, p = fit(a)
    shift = -d * np.log(a)
    dev[a] = dict(
        ls=abs(m.ls / (a * base.ls) - 1),
        mu=abs(m.mu - (base.mu + shift)),
        init=float(np.abs(np.asarray(m.initial_value) - np.asarray(base.initial_value)).max()),
        train=float(np.abs(y - (y0 + shift)).max()),
        pred=float(np.abs(p - (p0 + shift)).max()),
    )
    print(f"a={a:g}:", {k: f"{v:.3g}" for k, v in dev[a].items()})

# tolerance: 1e-6 is >1000x the deviation observed for a=1e3 in the deterministic starting point and far above
# c*eps*cond (cond <= 1/jitter*n ~ 2e8 -> ~1e-7); the fitted values are additionally compared with 5e-4
# (L-BFGS-B stops within ~1e-4 of the optimum).
bad = dev[1e-3]["init"] > 1e-6 and dev[1e-3]["pred"] > 5e-4 and dev[1e3]["init"] < 1e-6
print("VIOLATION" if bad else "ok")
sys.exit(1 if bad else 0)
