"""C08: with d_method='fractal' fitted log-densities do not follow a permutation of the cells (n > 500).

compute_d_factal estimates d on 500 cells drawn by POSITION (jax.random.choice over row indices with a fixed seed),
so reordering the rows selects other cells, changes d and thereby mu, the likelihood and every fitted value.
Identical inducing points are supplied, so k-means plays no role; the same comparison with the default
d_method='embedding' agrees to ~1e-10.
"""
import sys, logging, warnings
sys.path.insert(0, sys.argv[1] if len(sys.argv) > 1 else "/tmp/hunt/H4/repo")
import numpy as np
import mellon

logging.getLogger("mellon").setLevel(logging.CRITICAL)
warnings.filterwarnings("ignore")
print("mellon from", mellon.__file__)
rng = np.random.default_rng(0)
n = 700
X = rng.normal(size=(n, 3)); X[:, 2] *= 0.05
perm = rng.permutation(n)
lm = X[:50]
out = {}
for method in ("embedding", "fractal"):
    a = mellon.DensityEstimator(d_method=method, gp_type="fixed", landmarks=lm).fit(X)
    b = mellon.DensityEstimator(d_method=method, gp_type="fixed", landmarks=lm).fit(X[perm])
    dev = np.abs(np.asarray(a.log_density_x)[perm] - np.asarray(b.log_density_x)).max()
    out[method] = dev
    print(f"d_method={method}: d={a.d} vs {b.d} after permutation; mu {a.mu:.6f} vs {b.mu:.6f}; max |log_density[perm] - log_density_perm| = {dev:.3g}")
# same for the time-sensitive estimator
t = rng.choice([0.0, 1.0], size=n)
Xt = np.hstack([X, t[:, None]]); lmt = Xt[:50]
a = mellon.TimeSensitiveDensityEstimator(d_method="fractal", gp_type="fixed", landmarks=lmt, ls_time=1.0).fit(Xt)
b = mellon.TimeSensitiveDensityEstimator(d_method="fractal", gp_type="fixed", landmarks=lmt, ls_time=1.0).fit(Xt[perm])
devt = np.abs(np.asarray(a.log_density_x)[perm] - np.asarray(b.log_density_x)).max()
print(f"time-sensitive fractal: d={a.d} vs {b.d}; max deviation {devt:.3g}")
bad = out["fractal"] > 1e-3 and out["embedding"] < 1e-6
print("VIOLATION" if bad else "ok")
sys.exit(1 if bad else 0)
