"""C15: FunctionEstimator noise option `sigma` given as a sequence whose length contradicts the number of cells.

sigma may be a number or one value per cell.  A sequence of any other length contradicts the data:
 * sigma=[0.5] (one element, 12 cells) is silently ACCEPTED for the full GP and produces a different model than
   sigma=0.5: the 1x1 "noise factor" is broadcast over the whole covariance matrix (K + 0.25 everywhere instead of
   K + 0.25*I), i.e. the fit proceeds silently past the contradiction and returns wrong smoothed values;
 * sigma of length 5 or 13 for 12 cells fails with an internal jax TypeError ("add got incompatible shapes for
   broadcasting: (12, 12), (5, 5)") instead of a ValueError naming the conflict; with landmarks and
   predictor_with_uncertainty=True, y_is_mean=True the one-element form fails with a dot_general TypeError.
"""
import sys, logging, warnings
sys.path.insert(0, sys.argv[1] if len(sys.argv) > 1 else "/tmp/hunt/H4/repo")
import numpy as np
import mellon

logging.getLogger("mellon").setLevel(logging.CRITICAL)
warnings.filterwarnings("ignore")
print("mellon from", mellon.__file__)
rng = np.random.default_rng(0)
n = 12
X = rng.normal(size=(n, 2))
y = np.sin(X[:, 0]) + 3
bad = False

ref = np.asarray(mellon.FunctionEstimator(sigma=0.5, ls=1.0).fit_predict(X, y))
per_cell = np.asarray(mellon.FunctionEstimator(sigma=np.full(n, 0.5), ls=1.0).fit_predict(X, y))
print("scalar vs per-cell vector:", np.abs(ref - per_cell).max())
try:
    one = np.asarray(mellon.FunctionEstimator(sigma=[0.5], ls=1.0).fit_predict(X, y))
    dev = np.abs(ref - one).max()
    print("sigma=[0.5] accepted; max deviation from sigma=0.5:", dev)
    bad |= dev > 1e-9
except ValueError as e:
    print("sigma=[0.5] refused:", e)

for label, kw in [("sigma of length 5", dict(sigma=[0.5] * 5)), ("sigma of length 13", dict(sigma=np.full(n + 1, 0.5))),
                  ("sigma=[0.5], landmarks, with_uncertainty, y_is_mean", dict(sigma=[0.5], landmarks=X[:5], predictor_with_uncertainty=True, y_is_mean=True))]:
    try:
        mellon.FunctionEstimator(ls=1.0, **kw).fit_predict(X, y)
        print(label, ": accepted silently"); bad = True
    except ValueError as e:
        print(label, ": ValueError:", str(e)[:100])
    except Exception as e:
        print(label, ": INTERNAL", type(e).__name__, ":", str(e)[:100]); bad = True
print("VIOLATION" if bad else "ok")
sys.exit(1 if bad else 0)
