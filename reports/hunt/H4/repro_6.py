"""C18: different time stamps offered to a TimeSensitiveDensityEstimator that is already bound to data are silently
ignored instead of being refused with ValueError.

fit / fit_predict / prepare_inference accept the cell data as the pair (x, times).  Once the model is bound,
offering other cell states is refused ("self.x has been set already, but is not equal to the argument x"), but
offering other TIMES with x=None is accepted: the `times` argument is dropped without notice and the model is refitted
on the old time stamps, so the caller gets results for data he did not pass.
"""
import sys, logging, warnings
sys.path.insert(0, sys.argv[1] if len(sys.argv) > 1 else "/tmp/hunt/H4/repo")
import numpy as np
import mellon

logging.getLogger("mellon").setLevel(logging.CRITICAL)
warnings.filterwarnings("ignore")
print("mellon from", mellon.__file__)
rng = np.random.default_rng(0)
n = 20
Xs = rng.normal(size=(n, 2))
t1 = np.repeat([0.0, 1.0], n // 2)
t2 = np.tile([0.0, 1.0, 2.0, 3.0], n // 4)  # a different time annotation of the same cells

ref2 = np.asarray(mellon.TimeSensitiveDensityEstimator(ls_time=1.0).fit(Xs, t2).log_density_x)
m = mellon.TimeSensitiveDensityEstimator(ls_time=1.0).fit(Xs, t1)
y1 = np.asarray(m.log_density_x)
bad = False
for label, call in (("fit(times=t2)", lambda: m.fit(times=t2).log_density_x),
                    ("fit_predict(times=t2)", lambda: m.fit_predict(times=t2)),
                    ("prepare_inference(None, times=t2)", lambda: (m.prepare_inference(None, times=t2), m.log_density_x)[1])):
    try:
        y = np.asarray(call())
        print(f"{label}: accepted; model still uses old times: {np.array_equal(np.asarray(m.x[:, -1]), t1)}; "
              f"result equals fit on t1: {np.array_equal(y, y1)}; equals fit on t2: {np.allclose(y, ref2)}")
        bad = True
    except ValueError as e:
        print(f"{label}: refused: {e}")
try:
    m.fit(Xs, t2)
    print("fit(Xs, t2): accepted")
except ValueError as e:
    print("fit(Xs, t2): refused as expected:", e)
print("VIOLATION" if bad else "ok")
sys.exit(1 if bad else 0)
