#!/bin/sh
# soak: run quick checks of the given properties under many seeds; print only alarms / summaries
# usage: ./soak.sh "C01 C02 ..." "10 11 12" [budget]
cd "$(dirname "$0")" || exit 2
props="$1"; seeds="$2"; budget="${3:-90}"
[ -x lean/.lake/build/bin/mellon_driver ] || ./setup.sh
for s in $seeds; do
  for p in $props; do
    out=$(VERIF_SEED=$s ./check $p --tier quick --budget $budget 2>&1 | grep -E "VIOLATION|INFRA|^\[|KNOWN" )
    echo "seed=$s $out"
    echo "$out" | grep -q "VIOLATION" && for f in $(echo "$out" | grep -o "replays/[A-Za-z0-9_.-]*json"); do python3 -c "
import json; d=json.load(open('$f')); print('   ', d['what'], d['detail'], d['signature'])"; done
  done
done
